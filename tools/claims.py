# Table of claimed properties: id -> (technique, level text, level note, DESIGN.md reference)
COMMON_NOTE = ("Trusted base: go/types + go/ssa (x/tools v0.50.0), the frozen reference tables in the checker, documented behaviour of "
               "syscall/net/http. The rules decide structural necessary conditions on all CFG paths of the analysed functions "
               "(linux/amd64; thorough adds linux/386 and overlay variants); they do not execute sonic. ")

CLAIMED["C03"] = (
 "path-sensitive counter/event pairing over CFG paths; guard-literal and must-pass-through checks",
 "Static necessary-condition analysis. Decides on every path of the poller functions that the pending counter changes exactly with the events "
 "performed (bit set/cleared under the matching guard, post appended/run, waker discounted), that a refused registration rolls back, that Del "
 "clears both directions, that RunPending exits without error only under Pending()<=0 and otherwise re-runs, EINTR/ErrTimeout mapping, and that the "
 "counter is only accessed atomically. Does not decide equality with an independent ledger over histories nor kernel signal behaviour.",
 COMMON_NOTE + "Assumes the anchors (*poller).pending, Slot.Events, (*IO).RunPending/poll keep their identity; a renamed anchor makes the check fail with exit 2 rather than pass.",
 "DESIGN.md section 5 C03")

CLAIMED["C05"] = (
 "lockset dataflow (may/must-held) + effect analysis; ordering by reachability-avoiding search; who-may-call and goroutine reachability over resolved callees",
 "Static necessary-condition analysis. Decides that no function value runs while the poller's queue mutex is held, the append-before-wake and "
 "drain-before-take orderings, the swap-under-lock hand-over (no aliasing with the running batch, tail append, increasing iteration), the lockset of "
 "the queue/counter/closed flag, that posted handlers run only from the poll loop and that the goroutine of AsyncHandshake reaches the stream state "
 "and the user callback only through the closure it posts. Does not decide races in user code, fairness, or that the eventfd write cannot block.",
 COMMON_NOTE,
 "DESIGN.md section 5 C05")

CLAIMED["C01"] = (
 "typestate counting dataflow for completion callbacks (least-fixpoint interprocedural summaries over SSA, CHA-resolved interface calls), dominator-chain guard analysis of the poll loop and cancel/close paths",
 "Static necessary-condition analysis. Decides that every callback-taking function of file/conn/AsyncAdapter/listener/packetConn/UDPPeer/ByteBuffer "
 "discharges its completion exactly once on every terminating CFG path (invoke, delegate, or park on the success edge of a registration with a handler "
 "installed), that every installed handler does the same for the parked callback and is armed with the operation's own callback, that the poll loop "
 "filters batch entries by the freshly read interest and removes the interest before dispatch, that Cancel/Close remove interests before calling the "
 "continuation / closing the descriptor (non-nil cancellation error), and that hang-up/error events are folded into the registered directions. "
 "Does not decide kernel readiness, peer behaviour, loop liveness or misuse (two reads started on one object).",
 COMMON_NOTE + "Recursive completions are summarised as a least fixpoint (exactly once provided the recursion ends). Parking through a reactor-method handler counts as one discharge by convention; the handler and arming rules verify the two halves of that convention.",
 "DESIGN.md section 5 C01")

CLAIMED["C04"] = (
 "enum typestate over guard literals (dominator chain), control-dependence on the timerfd read, path enumeration of Unset, success-edge pairing of state/pendingTimers updates",
 "Static necessary-condition analysis. Decides that stateClosed is absorbing, that the internal timer's handler reaches the user function only under a "
 "successful read(2) of the timerfd (and re-registers on a stale event), that arming happens only in stateReady with state/pendingTimers updated on "
 "the success edge, that the expiry closure resets before the user runs, that Unset disarms with a zero spec and removes the interest, that the "
 "armed spec is one-shot, and the cancelled-flag protocol of ScheduleRepeating. Does not decide wall-clock clauses (delay elapsed, spacing) nor that the timer fires.",
 COMMON_NOTE,
 "DESIGN.md section 5 C04")

CLAIMED["C14"] = (
 "path-sensitive bracket (counter pairing) analysis + guard literals + interprocedural provenance (rawness) propagation of callback values over resolved calls",
 "Static necessary-condition analysis over the five descriptor owners. Decides that every update of IO.Dispatched is a balanced +1/callback/-1 bracket on "
 "every path, that each bracket is reached only under Dispatched < MaxCallbackDispatch (same field, same constant, strict), and that no raw API-entry "
 "callback is invoked synchronously outside a bracket unless on the poller's dispatch stack. The 17 error-completion call sites of schedule*/asyncAccept "
 "violate the last clause on the pinned tree (D23) and are listed as known findings by construct key; any other call site is reported. "
 "Does not decide that deferral preserves the result on every descriptor kind (kernel) nor panicking callbacks.",
 COMMON_NOTE,
 "DESIGN.md section 5 C14")

CLAIMED["C13"] = (
 "resource-ownership analysis (acquire -> transfer/release on every CFG path, path-sensitive evaluation of error results and deferred closures, interprocedural owned-return / captured-parameter summaries), close-once guard recognition by dominance, must-pass-through for Register",
 "Static necessary-condition analysis. Decides for every acquisition site (direct syscalls and summarised in-scope constructors, 30+ sites) that on each path "
 "on which the acquisition succeeded the resource is returned with a nil/undetermined error, stored in the returned object or a long-lived owner, handed to "
 "the user's callback, or released (also through deferred closures whose guards hold on that path); that the websocket handshake closes the connection on "
 "failing paths; that each Close/Destroy is dominated by a once-guard and reaches close(2) on every path past it; that Register follows the success edge of every "
 "registration and Deregister drops the slot only under Events == 0. Does not decide exhaustion at the k-th allocation beyond the enumerated error edges, nor GC behaviour.",
 COMMON_NOTE,
 "DESIGN.md section 5 C13")

CLAIMED["C08"] = (
 "enum typestate: static transition relation from guard literals (dominator chain) + path enumeration with infeasible-path pruning for the close-reply table and read gate",
 "Static necessary-condition analysis. Decides that the static transition relation of Stream.state (13 stores with their guard-allowed from-sets) is a subset of the "
 "RFC 6455 table, that prepareClose is reached only from Active with the state left first (at most one Close frame), that application/pong frames are queued only in "
 "Active, that a Ping yields exactly one Pong with its payload and a Pong nothing, the close-reply table on every path, flush-before-read, the canRead gate, EOF -> "
 "Terminated + Close(1006), and FIFO use of the pending queue. Does not decide behaviour over event histories beyond the static relation nor what reaches the peer.",
 COMMON_NOTE,
 "DESIGN.md section 5 C08")

CLAIMED["C15"] = (
 "exhaustiveness/table agreement over opcode constants, dominator-chain guards (checks dominate effects), path enumeration of verifyFrame/handleFrame, twin agreement of the message-level rules",
 "Static necessary-condition analysis. Decides opcode exhaustiveness (reserved = complement of the declared opcodes, control = {8,9,10}, erroring default), that FIN/125 and "
 "verifyFrame (RSV1-3, mask by role) dominate every effect of the frame handlers, that every decoded frame passes handleFrame before delivery in both the blocking and the "
 "asynchronous reader, that a verification error in StateActive queues Close(1002) and leaves StateActive on every such path, that the three message-level rules exist "
 "in both NextMessage and asyncNextMessage, and that the decoder bounds the declared length (0..max) before yielding a frame. Does not decide behaviour under every segmentation.",
 COMMON_NOTE,
 "DESIGN.md section 5 C15")

CLAIMED["C07"] = (
 "taint -> sanitiser -> sink over SSA with dominator-chain guards; value identity of the prepared amount and the slice bound; additive-leaf decomposition of the frame length; encode/decode table extraction against the frozen RFC 6455 table",
 "Static necessary-condition analysis. Decides that the declared payload length is bounded (0..max) before every arithmetic use, PrepareRead, Reserve or slice bound in the decoder, "
 "that Decode starts by consuming the previous frame, that the frame yielded is Data()[:k] for exactly the k PrepareRead granted with k = 2 + ext + (4 if masked) + payload, that "
 "header accessors only see bytes already granted, and that the encoder/decoder length tables agree with RFC 6455 section 5.2. Does not decide decode(encode(f)) == f on contents "
 "nor independence from split points beyond these structural facts.",
 COMMON_NOTE,
 "DESIGN.md section 5 C07")

CLAIMED["C16"] = (
 "ownership/who-may-call on the pending queue and the codec connection, path enumeration of prepareWrite, value identity in MaskPayload, additive-leaf decomposition of the trim/resize bounds, table agreement, dominance of the size check",
 "Static necessary-condition analysis. Decides that frames are queued only by prepareWrite and (for clients) only after MaskPayload, that MaskPayload sets the bit first and uses one key for "
 "f.Mask() and f.Payload(), that the codec connection is fed only from the queue by Flush/AsyncFlush, the shortest-length-encoding table, that WriteTo trims to payloadOffset()+PayloadLength(), "
 "that SetPayload sets the length before the offset and resizes to offset+len(b), that pooled frames are reset and clients reserve the mask, that oversized messages are refused before "
 "any frame is acquired or queued, and the reserve/commit/consume discipline of Encode. Does not decide unmask(wire)==caller bytes as values nor partial transport writes.",
 COMMON_NOTE,
 "DESIGN.md section 5 C16")

CLAIMED["C18"] = (
 "table agreement (request headers, acceptance predicate), value identity of the key across header and hash, dominance of the acceptance checks, path enumeration of the handshake outcome, banned-flow (taint) on the leftover offset, loop/terminator recognition, field write-set vs reset-set comparison",
 "Static necessary-condition analysis. Decides the upgrade request table (GET, mandatory headers before caller headers, fresh 16-byte crypto/rand base64 key, accept value derived from the same key and the GUID), "
 "that success is dominated by IsUpgradeRes (101 + case-insensitive Upgrade: websocket) and equality of Sec-WebSocket-Accept with that derived value, that failure stores StateTerminated and success "
 "StateActive before init, that the leftover offset is bytes.Index(received, CRLFCRLF)+4 and not a re-serialisation, that the response is read in a terminator-driven loop, and that every session-written "
 "field is re-initialised by reset()/init(). Does not decide net/http's tolerance to header order/case/whitespace nor the server closing mid-handshake.",
 COMMON_NOTE,
 "DESIGN.md section 5 C18")

CLAIMED["C17"] = (
 "counting dataflow for completion callbacks through closures, generic instantiations and CHA-resolved transport interfaces; entry-family reachability of the transport-write starter with in-flight-flag idiom recognition",
 "Static necessary-condition analysis. Decides that every callback-taking function of Stream, CodecConn and ByteBuffer (25 function/parameter summaries including closures and AsyncHandshake) discharges its "
 "callback exactly once on every terminating path through every in-scope implementation of the transport interfaces, that the transport-write completion releases the frame and continues only "
 "on success, and whether the function that starts transport writes is serialised by an in-flight flag or started from one entry family only. The last clause is violated on the pinned tree "
 "(D11: read path and write path both start transport writes, unguarded) and is listed as a known finding keyed by the read family's call site. Does not decide interleavings relative to poll cycles.",
 COMMON_NOTE,
 "DESIGN.md section 5 C17")

CLAIMED["C19"] = (
 "taint -> sanitiser -> sink on the unsigned wire length, value identity between prepared amount / slice bound / recorded length, loop analysis of ReadNext (reachability avoiding the transport read), count-threading checks in ByteBuffer transfer functions",
 "Static necessary-condition analysis. Decides that the length prefix is bounded by MaxPayloadLength (unsigned) before conversion and before every buffer operation, the in-sync structure of "
 "frame.Codec.Decode/Encode/resetDecode, that ReadNext reads from the transport between two Decode attempts and only returns non-NeedMore or transport errors, that an incomplete payload reserves room, "
 "and that AsyncWriteTo/WriteTo/ReadFrom/AsyncReadFrom move exactly the counts reported (AsyncWriteAll, consume n on success, resume at si+written). Exactly-once completion of AsyncReadNext/AsyncWriteNext "
 "is decided by the shared engine under C17-R2. Does not decide equality of payload sequences.",
 COMMON_NOTE,
 "DESIGN.md section 5 C19")

CLAIMED["C02"] = (
 "value-identity (progress threading) over SSA, path enumeration with branch literals for the success condition, errno/EOF mapping tables by guard literals",
 "Static necessary-condition analysis for file/conn and AsyncAdapter. Decides that each transfer is issued on b[progress:], that progress+n (the same SSA value) is what every completion and re-schedule receives, "
 "that the reactor records and replays progress/buffer/all-flag, that operations start at 0 with the all-flag their API name promises, that a success completion (nil constant, or the transfer error on a path "
 "where it is nil) is only reachable after a successful transfer that is complete or not an *All operation, the EAGAIN/EOF/count mapping of file.Read/Write, and that ErrWouldBlock re-arms instead of completing. "
 "Does not decide that the bytes are the peer's bytes in order (kernel, runtime values) nor arbitrary io.ReadWriter implementations under the adapter.",
 COMMON_NOTE,
 "DESIGN.md section 5 C02")

CLAIMED["C09"] = (
 "taint -> sanitiser -> sink for caller-controlled integers with clamp (phi) recognition and overflow-prone-guard rejection; must-pass-through pairing of wi and len(data); guard literals on Read",
 "Static necessary-condition analysis. Decides that in every exported ByteBuffer method caller-controlled integers (int parameters, Slot fields, the result of Claim's user function) are bounded on both sides by "
 "quantities independent of them (or by a validator whose body is overflow-free comparisons) wherever they reach cursor arithmetic or storage slice bounds, that data is re-sliced to wi after every store to wi on every path, "
 "that Read returns copied bytes only from a non-empty data[si:ri], and that Consume/Discard shift all cursors above the removed range by one amount. Exception (documented): Reserve. "
 "Does not decide content/order preservation across memmoves nor the inductive invariant si <= ri <= wi.",
 COMMON_NOTE,
 "DESIGN.md section 5 C09")

CLAIMED["C10"] = (
 "transition-table agreement: canonical forms of every cursor store with its dominator-chain guards compared against the frozen bip-buffer table; min-clamp (phi) recognition",
 "Narrow static necessary-condition analysis. Decides that Claim, Commit, Consume, Reset, Committed and Head of BipBuffer update/read the six cursors exactly as the bip-buffer algorithm prescribes "
 "(free ranges of the layout, min-clamps on claim and commit, re-anchoring of an empty buffer, adjacency test, promotion exactly when the primary region empties, all six cursors zeroed by Reset). "
 "A behaviour-preserving rewrite that changes the shape of a cursor update (not merely operand order or comparison direction, which are normalised) would need the table to be re-confirmed. "
 "Does not decide FIFO order, Committed() over histories, contiguity after promotion or the representation invariant: these need an inductive relational argument outside this technique.",
 COMMON_NOTE,
 "DESIGN.md section 5 C10")

CLAIMED["C11"] = (
 "wrap-idiom recognition on every cursor store (with must-pass-through to the wrap test), min-clamp (phi) recognition, value identity between the clamped amount and the used/cursor/result updates, constructor parameter table",
 "Static necessary-condition analysis. Decides that head/tail are only ever stored as 0, x % size or advance-then-conditional-subtract under cursor >= size (a bit mask is accepted only with a power-of-two validation in the "
 "constructor), that Claim/Commit/Consume use min(n, FreeSpace()/UsedSpace()) and nothing else, that Claim hands out slice[tail:][:amount], that used, the cursor and the result move by that one amount, the "
 "FreeSpace/UsedSpace/Size/Reset formulas, and the construction parameters (page rounding, positive size, 2*size reservation, file truncated to size and mapped twice MAP_FIXED|MAP_SHARED at slice[0] and slice[size], "
 "length size, offset 0). Release of mapping / temp file / descriptor on every path is decided under C13. Does not decide that the two mappings alias (MMU) nor negative amounts.",
 COMMON_NOTE,
 "DESIGN.md section 5 C11")

CLAIMED["C20"] = (
 "counter/event pairing by guard literals on the container's outcomes, dominance of capacity checks over mutations, path enumeration of the duplicate outcome, value identity in Offset/Add, clamp recognition in OffsetSlot",
 "Static necessary-condition analysis. Decides that SlotSequencer.bytes follows exactly the ok/err outcomes of the container's Push/Pop and is reset with container and offsetter, that capacity tests precede every "
 "mutation and a duplicate leaves the container untouched, that Pop offsets and returns the popped slot on the ok path and resets the offsetter only when empty, that Offset queries and records at the same index "
 "with the slot's length, that Add shifts by the discarded total and rejects indices beyond the tree, that OffsetSlot clamps to [0, Index], and that the container inserts/removes at the ordered search position. "
 "Does not decide the Fenwick prefix sums nor the index translation itself (numeric loop invariants).",
 COMMON_NOTE,
 "DESIGN.md section 5 C20")

CLAIMED["C06"] = (
 "who-may-call on the codec connection, loop-variable (phi) / captured-cell update analysis with guard literals for the reassembly state, value identity of copy destination/count, feature-set agreement between sync and async twins",
 "Partial static necessary-condition analysis. Decides that only nextFrame/asyncNextFrame read the codec connection, that in both message readers each data payload is copied to b[total:] with the total advancing by "
 "exactly the count copied and being what is reported, that the type comes from the first data frame only, that the continuation flag is !FIN of the data frame, that control frames between fragments leave the "
 "reassembly state untouched and go to the control callback only, and that the blocking and asynchronous variants share their vocabulary of errors, accessors, limits and state constants modulo the sync/async renaming. "
 "Does not decide byte-identical payloads for all fragmentations x segmentations (runtime values).",
 COMMON_NOTE,
 "DESIGN.md section 5 C06")

CLAIMED["C12"] = (
 "path counting of the datagram syscalls, value-flow (dependence) of count/sender/destination, success-edge pairing of cached settings with their kernel calls, setter/getter and socket-option ABI table agreement, who-calls dispatch",
 "Partial static necessary-condition analysis. Decides that each datagram read/write issues exactly one recvfrom/sendto per call outside loops with the caller's slice and address and reports that call's count and sender, "
 "that the multicast read handler uses the reactor's current buffer (designated by AsyncRead/SetAsyncReadBuffer), that every cached UDPPeer setting is stored on the success edge of the corresponding kernel call with the value "
 "passed/returned and that constructor defaults match ip(7) or are read back, that each net/ipv4 function uses the socket option of its name at IPPROTO_IP (IP_MULTICAST_ALL=49) and fills the request from like-named arguments, "
 "that set/get mappings compose to the identity, and that UDPPeer dispatches join/leave/block/unblock to the right function. GetMulticastLoop's inverted decode (D19) is a known finding pinned by a baseline test. "
 "Exactly-once completion of the datagram operations is decided under C01. Does not decide datagram boundaries, truncation or group/source filtering (kernel).",
 COMMON_NOTE,
 "DESIGN.md section 5 C12")

# Clauses added after the seeded-defect rounds and the exploratory variants (DESIGN.md sections 8.1-8.3).
EXTRA = {
 "C01": " Also decides that only Slot.Set writes the handler table and that every operand a reactor handler reads (buffer, destination, mode) is armed together with the callback before any call that can park the operation; that every constructor stores the new object into its reactors' back-pointers; and, per path and per call site of a shared cancel helper, that a parked operation is completed at most once, after testing and removing the interest of its own direction. Also decides that Cancel reaches a completion for every direction the type parks operations in, that the poll loop dispatches both directions, and that constructors reporting through a callback (NewAsyncAdapter) discharge it exactly once. Also decides that every type embedding a Slot stores a descriptor into it. Also decides that a registration sits on the open branch of a park function's Closed() test.",
 "C03": " Also decides that a posted handler is counted before the mutex that publishes it is released, and that the poller's SetRead/DelRead change the read interest bit and SetWrite/DelWrite the write interest bit (seen through shared helpers). Also decides that EPOLL_CTL_DEL is issued only under Slot.Events == 0 read after the update and EPOLL_CTL_ADD only when the previous mask was 0. Also decides that every recorded change of Slot.Events that is reported as successful is followed by epoll_ctl on that path. Also decides that the batch loop reads events[i] only for i strictly below the kernel's count. Also decides that an interrupted bounded wait maps to ErrTimeout and an unbounded one to nil.",
 "C04": " Also decides that the read interest is registered only after the timerfd was armed, that Cancel flags the repeating closure in every live state, that ScheduleOnce clears the flag only on paths that arm, and that the immediate callback runs only on a ready timer; that Cancel records stateReady exactly on the success edge of Unset and Close records stateClosed on every path of an open timer. Also decides that a schedule on a timer that is not ready returns an error, that ScheduleOnce arms the internal timer and runs the callback (on expiry and at once), and that Timer.Set registers the read interest. Also decides that ScheduleRepeating starts only for an interval > 0.",
 "C05": " Also decides that the batch loop covers index 0..len-1 in steps of one. Also decides (R6) that a *Slot handed out by an accessor or passed to a registration is never the address of a field of a by-value copy (the waker's registration stays reachable from the poller). Also decides that the queue mutex is released on every path of every function that takes it.",
 "C07": " Also decides that an incomplete payload unconditionally reserves at least the declared payload length. Also decides that setPayloadLength clears the previous length bits of byte 1 on every path before it ors a code in. Also decides that every Data()[:k] of the decoder follows a PrepareRead(k) that returned nil, that a failed stage returns its error, and that an incomplete payload reserves room at all.",
 "C08": " Also decides that the transitions of the closing handshake exist (Active->ClosedByUs/ClosedByPeer, ClosedByUs->CloseAcked, ->Terminated). Also decides that CodecConn hands the error of a failed transport read to its caller / callback unchanged (the stream recognises the end of the transport by err == io.EOF). Also decides that each of the three close replies (echo, 1000, 1002) is reachable.",
 "C09": " Also decides that PrepareRead grants n only under n <= ReadLen() or after Commit(n-ReadLen()) under n-ReadLen() <= WriteLen(), that the memmove tail of Consume/Discard starts exactly the shifted amount above its destination, and exact amounts/bounds of Save, Reset, UnreadByte/ShrinkBy, Write*, Claim/ClaimFixed and the save-area validator (canonical comparison forms). Also decides that Read consumes exactly the count it copied, that DiscardAll discards [0, SaveLen()) and that UnreadByte/ShrinkBy move wi.",
 "C10": " Also decides that the chunk Commit returns starts at the cursor of the region it was attached to.",
 "C11": " Also decides that the mapping routine is invoked once with each of the two addresses.",
 "C12": " Also decides that reactor handlers leave the reactor's buffer/destination/callback alone, that the destination of a datagram write is computed from the argument on that call, and that a net.IP copied into a 4-byte kernel address goes through To4(). Also decides that the exported membership entry points hand the group and source derived from their own arguments to the per-family function. Also decides that the membership functions hand the errno of their setsockopt call to the caller, copy the group and (when an interface is given) an address of that interface into the request, that JoinSourceOn resolves and hands on the interface it was given, and that NewUDPPeer takes IP and Port of the local address from getsockname for every family. Also decides that the error of a datagram attempt reaches the callback only when it is nil or known not to be ErrWouldBlock.",
 "C13": " Also decides that the poller-interest removal and slot-table deregistration of every Close run behind its once-guard, and that the failed websocket handshake hands its connection to handshake(), which closes it after dial returned. Also decides that every field an acquisition was stored into is released by its owner's Close (poller.waker, sockets, timerfd, mappings), that Stream.CloseNextLayer closes the dialed connection, and that Destroy forgets the mapping exactly on munmap's success edge.",
 "C14": " Also decides (R2) that an object built on a descriptor from open(2) has a deferral route that does not depend on the epoll registration - violated by file.scheduleRead/scheduleWrite for regular files (D28, known finding).",
 "C15": " Also decides that handleFrame returns a check's error in every state and that the framing-violation errors are raised only by the checks handleFrame runs.",
 "C16": " Also decides (R6) that a frame is encoded into the write buffer once - violated by the blocking Flush after a failed transport write (D29, known finding). Also decides that Encode reserves, commits and drops on the buffer WriteTo serialised into. Also decides that Frame.Reset zeroes the header, SetOpcode replaces the opcode bits, each SetX sets OpcodeX, and the payload is masked whenever it is not empty.",
 "C17": " Also decides that the frame leaves the pending queue before its transport write starts. Also decides (R4) that the encode/write paths of the codecs and of CodecConn call no ByteBuffer method on the read buffer and the decode/read paths none on the write buffer.",
 "C18": " Also decides that the terminator is searched in a window overlapping earlier reads, that the handshake buffer is cut to the received bytes before it is parsed, that the hasher is reset before the key is hashed, and (R7, over the call graph with callback-parameter propagation) that nothing executing inside the RawConn.Control callback closes a connection. Also decides that the response loop stops strictly when the buffer is full and that the buffer is re-sliced to its capacity before reading.",
 "C19": " Also decides that Decode consumes nothing on a path that can still fail, that the length prefix is written and read in the same byte order, that ReadNext reads the transport only after ErrNeedMore, that an Encode error gates the transport write, and that every exit of ByteBuffer.WriteTo reporting written bytes has consumed them. Also decides that Encode refuses len(frame) > MaxPayloadLength only.",
 "C20": " Also decides that the container search is a lower bound on the sequence number, that Pop matches it exactly, and that the popped slot is offset before the offsetter is reset. Also decides that SlotSequencer.Reset clears offsetter, container and byte count and that the container's Reset empties it.",
}
for _pid, _extra in EXTRA.items():
    _t = CLAIMED[_pid]
    CLAIMED[_pid] = (_t[0], _t[1] + _extra, _t[2], _t[3])
