#!/usr/bin/env python3
"""Exploratory variants: applies each text edit of a Python list file (entries: name, file, old, new) to an overlay copy
of one /repo file and runs every property's rules on it (sonicsa variant -p all). Prints which rules report it.
Nothing is written under /repo. usage: explore.py <list.py> [name-substring]"""
import json, os, subprocess, sys, tempfile
spec = {}
exec(open(sys.argv[1]).read(), spec)
flt = sys.argv[2] if len(sys.argv) > 2 else ""
env = dict(os.environ, PATH="/opt/veriftools/go1.26.8/bin:" + os.environ["PATH"], GOTOOLCHAIN="local", GOFLAGS="-mod=mod", GOPROXY="off", GOWORK="off")
for m in spec["VARIANTS"]:
    name, file, old, new = m
    if flt not in name:
        continue
    src = open("/repo/" + file).read()
    if src.count(old) != 1:
        print(f"{name}: SKIPPED (text found {src.count(old)} times)")
        continue
    with tempfile.NamedTemporaryFile("w", suffix=".go", delete=False) as f:
        f.write(src.replace(old, new, 1))
    p = subprocess.run(["/verif/bin/sonicsa", "variant", "-p", "all", "-repo", "/repo", "-verif", "/verif", "-file", file, "-content", f.name], env=env, capture_output=True, text=True)
    os.unlink(f.name)
    try:
        r = json.loads(p.stdout.strip().splitlines()[-1])
    except Exception:
        print(f"{name}: ERROR {p.stdout[-300:]} {p.stderr[-300:]}")
        continue
    keys = r.get("keys") or r.get("Keys") or []
    rules = sorted(set(k.split("|")[0] for k in keys))
    infra = r.get("infra") or r.get("Infra") or ""
    print(f"{name}: {'MISSED' if not rules else ' '.join(rules)} {('INFRA ' + infra[:200]) if infra else ''}")
