#!/bin/bash
# usage: run_check.sh <property id> <quick|thorough>; rebuilds nothing but the analysis itself: /repo's working tree is
# loaded and type-checked afresh on every run.
. /verif/env.sh
[ -x /verif/bin/sonicsa ] || bash /verif/setup.sh >/dev/null
exec /verif/bin/sonicsa check -p "$1" -tier "${2:-quick}" -repo /repo -verif /verif
