# sourced by every command of /verif: pins the toolchain, no network.
export PATH=/opt/veriftools/go1.26.8/bin:$PATH
export GOTOOLCHAIN=local GOFLAGS=-mod=mod GOPROXY=off GOWORK=off GONOSUMDB=* GONOSUMCHECK=1 GOFLAGS=-mod=mod
unset GOSUMDB 2>/dev/null || true
export GONOSUMDB='*' GOFLAGS=-mod=mod
